(* C01 — End-to-end fidelity: the handler sees exactly the committed transactions.
   Stated in two layers that compose:
   (1) this file: if the packets decode to the events of a sequence of units (with quiet events interleaved
       anywhere), parseEvents delivers exactly the transactions of those units - C01_fidelity_given_decoding;
   (2) the decoding layer: what each well-formed encoded event decodes to - headers and control events with or
       without CRC32 (Props/C16.v), table maps (Props/C15.v), rows events and images for v1/v2 and 4/6-byte table
       ids (Props/C09.v), every cell type (Props/C10..C14.v).
   (3) the capstone C01_e2e_fidelity composes (1) and (2) into one closed theorem over well-formed binlogs served
       as bytes (Spec/Binlog.v: wire events, grammar, denotation `abs`/`denote`, wf_binlog;
       Proofs/DecodeProofs.v: what `decode` returns for each wire event; Proofs/Capstone.v: induction over the
       grammar).  It is universally quantified over the configuration (CRC32 on/off, rows v1/v2, 4/6-byte table
       ids, header length 19..255, size table 35..255 entries, any padding pattern in the unused high bits of the
       last byte of every bitmap: c_pad_cols / c_pad_null / c_pad_tm), the mapper, the oracles and the start position,
       allows GTID / anonymous GTID / previous-GTIDs / heartbeat / other ignorable events and repeated format
       descriptions between any two events, and covers every column type with every value (Spec.Values.wf_value:
       JSON columns hold any storable document, VJson d with wf_doc d, C14) and every NULL / absent pattern.
       The JSON printer of the model is Model.Json.print_json efmt - the model of printJSONData with the 'E'
       float-formatting oracle efmt - and the denotation renders documents with the same efmt; efmt is
       universally quantified like ffmt and tz.
       C01_e2e_fidelity_from is the same for a dump started at any unit boundary.
   The composition for concrete histories (JSON columns included) is also exercised end to end by the harness
   (model, implementation through the parseEvents hook, and the real Stream() against the fake master are compared
   with the unit-level oracle). *)
From Coq Require Import String.
From GB Require Import Base.Prelude Base.DecText Model.Events Model.Rbr Model.Json Model.Streamer Model.Handshake Spec.Units.
From GB Require Import Spec.EncHeader Spec.Values Spec.EncJson Spec.EncEvent Spec.Expect Spec.EventSpec Spec.Binlog.
From GB Require Import Proofs.ImageProofs Proofs.TableMapProofs Proofs.RowsProofs Proofs.RowsAll Proofs.CellAll.
From GB Require Import Proofs.StreamProofs Proofs.StreamProofs2 Proofs.StreamProofs3 Proofs.Capstone.
Open Scope Z_scope.

Theorem C01_fidelity_given_decoding : forall ffmt tz jsonp verdict mp,
  (forall k, verdict k = true) -> forall evs p us,
  let st0 := init_state p in
  ~ In APanic (trace ffmt tz jsonp verdict mp st0 evs) ->
  filter (fun a => negb (quiet a)) (trace ffmt tz jsonp verdict mp st0 evs) = events us ->
  parse_events ffmt tz jsonp verdict mp p evs =
    (snd (spec_run p us), map (fun t => (t, true)) (fst (spec_run p us)), OEnd).
Proof. exact fidelity_given_decoding. Qed.
Print Assumptions C01_fidelity_given_decoding.

(* the byte-level loop is, event by event, the state machine applied to the decoded event *)
Theorem C01_run_is_abstract : forall ffmt tz jsonp verdict mp evs st,
  ~ In APanic (trace ffmt tz jsonp verdict mp st evs) ->
  run_from ffmt tz jsonp verdict mp st evs =
    (fst (arun verdict st (trace ffmt tz jsonp verdict mp st evs)),
     outcome_of (snd (arun verdict st (trace ffmt tz jsonp verdict mp st evs)))).
Proof. exact run_is_abstract. Qed.
Print Assumptions C01_run_is_abstract.

Example C01_nonvacuous :
  let e := {| se_type := 4; se_table := ([100], [116]); se_query := zero_query; se_ts := 7; se_values := []; se_ids := [] |} in
  let us := [UTx [{| st_ev := e; st_next := 200; st_ts := 7 |}] 230 8; UAuto {| st_ev := e; st_next := 300; st_ts := 9 |}] in
  map (fun t => (p_off (t_now t), p_off (t_next t))) (fst (spec_run {| p_file := [97]; p_off := 120 |} us)) = [(120, 230); (230, 300)] /\
  filter (fun a => negb (quiet a)) (ANop :: AFormat format_zero :: ABegin :: ANop :: stmt_event {| st_ev := e; st_next := 200; st_ts := 7 |} :: [ACommit 230 8])
    = events [UTx [{| st_ev := e; st_next := 200; st_ts := 7 |}] 230 8].
Proof. split; vm_compute; reflexivity. Qed.

(* ---- the capstone ---- *)

(* For every configuration c, table mapper mp, oracles ffmt, tz (bounded), efmt, start position p and binlog b that
   is well-formed for c and mp (the JSON printer being the model of printJSONData over efmt): the bytes the master serves for b - fake rotate, format description, the events of
   the units with ignorable events anywhere - make parseEvents (every handler call accepted) return the final
   boundary position, the transactions of the units b denotes (exactly one per committing unit, in commit order,
   with their changes, images, timestamps and position labels), and no error. *)
Theorem C01_e2e_fidelity : forall ffmt tz efmt mp c b p,
  (forall v, -86400 <= tz v <= 86400) ->
  wf_binlog c mp b ->
  parse_events ffmt tz (print_json efmt) (fun _ => true) mp p (map (wire c) (serve b)) =
    (snd (spec_run p (denote ffmt tz efmt mp b)),
     map (fun t => (t, true)) (fst (spec_run p (denote ffmt tz efmt mp b))),
     OEnd).
Proof. exact e2e_fidelity. Qed.
Print Assumptions C01_e2e_fidelity.

(* every valid start position: a dump started at the boundary after the first k units (any fake rotate in front)
   delivers exactly the remaining transactions, which are the rest of what the whole binlog delivers *)
Theorem C01_e2e_fidelity_from : forall ffmt tz efmt mp c b p k h name pos crc,
  (forall v, -86400 <= tz v <= 86400) ->
  wf_binlog c mp b -> wf_whdr h -> fits c (WRotate h name pos crc) ->
  let us := denote ffmt tz efmt mp b in
  let q := snd (spec_run p (firstn k us)) in
  parse_events ffmt tz (print_json efmt) (fun _ => true) mp q (map (wire c) (serve (serve_from b k h name pos crc))) =
    (snd (spec_run p us), map (fun t => (t, true)) (fst (spec_run q (skipn k us))), OEnd) /\
  fst (spec_run p us) = fst (spec_run p (firstn k us)) ++ fst (spec_run q (skipn k us)).
Proof. exact e2e_fidelity_from. Qed.
Print Assumptions C01_e2e_fidelity_from.

(* the keyword table of the specification is the one of the code, and the type codes named as ignorable are *)
Example C01_spec_tables :
  keywords = GBGen.Consts.statementPrefixes /\ forallb ignorable_type ignorable_types = true /\
  forallb (fun t => negb (ignorable_type t)) handled_types = true.
Proof. repeat split; vm_compute; reflexivity. Qed.

(* ---- non-vacuity: two tables (the second with a JSON column: a document - object with a nested array, a double,
        an opaque DATETIME - in one row, NULL or absent in the others), CRC32 on, 23-byte headers, v2 rows events; previous-GTIDs and anonymous GTID
        events; a transaction that logs both table maps first (multi-table statement), then an update of 2 rows
        of the first table (NULL and absent columns, different presence patterns before / after), an ignorable
        event and a SAVEPOINT statement, two rows events for the second table (a large statement split in two), closed by XID; a heartbeat;
        a DDL; a rotation followed by the next file's format description; an autocommitted table map + rows ---- *)
(* padding bits: set in the presence bitmaps and the rows' NULL bitmaps (as a master leaves them), a mixed pattern in
   the table maps; both tables have column counts (5, 3) that are not multiples of 8 and the images are partial *)
Definition e_cfg : cfg := {| c_crc := true; c_v2 := true; c_tid4 := false; c_hlen := 23; c_nsizes := 40;
                             c_pad_cols := 255; c_pad_null := 255; c_pad_tm := 170 |}.
Definition e_ffmt (b x : Z) : bytes := [49].
Definition e_tz (x : Z) : Z := 0.
Definition e_efmt (bits : Z) : bytes := str "1E+" ++ digs bits.
Definition e_jsonp : bytes -> res bytes := print_json e_efmt.
Definition e_doc : jdoc :=
  JObj false [(str "tags", JArr false [JStr (str "vip"); JInt16 (-3); JTrue]); (str "score", JDouble 7);
              (str "at", JDateTime 2020 1 2 3 4 5 600000); (str "big", JUint64 18446744073709551615)].

Definition e_t1 : table_def :=
  {| td_id := 70; td_flags := 1; td_db := str "shop"; td_name := str "orders";
     td_cols := [(TLong, false); (TVarchar 300 false, true); (TNewDecimal 10 2, true); (TDateTime2 3, true); (TTiny, true)];
     td_optional := [] |}.
Definition e_t2 : table_def :=
  {| td_id := 71; td_flags := 1; td_db := str "shop"; td_name := str "log";
     td_cols := [(TLongLong, false); (TBlob 2 252, true); (TJson 4, true)]; td_optional := [1; 2] |}.
Definition e_ti1 : tinfo :=
  {| ti_name := (str "shop", str "orders");
     ti_cols := [(str "id", false); (str "customer", false); (str "total", false); (str "placed", false); (str "qty", true)] |}.
Definition e_ti2 : tinfo := {| ti_name := (str "shop", str "log"); ti_cols := [(str "seq", true); (str "msg", false); (str "meta", false)] |}.
Definition e_mp : mapper := fun db name =>
  if bytes_eqb db (str "shop") && bytes_eqb name (str "orders") then Some e_ti1
  else if bytes_eqb db (str "shop") && bytes_eqb name (str "log") then Some e_ti2 else None.

Definition e_h (ts nx : Z) : whdr := {| w_ts := ts; w_sid := 1; w_next := nx; w_flags := 0 |}.
Definition e_q (ts nx : Z) (kw tail : string) : wquery :=
  {| wq_h := e_h ts nx; wq_thread := 9; wq_exec := 0; wq_err := 0;
     wq_vars := [(0, [0; 0; 0; 0]); (1, [0; 0; 0; 0; 0; 0; 0; 0]); (4, [33; 0; 33; 0; 8; 0])];
     wq_db := str "shop"; wq_kw := str kw; wq_tail := str tail; wq_crc := [1; 2; 3; 4] |}.

Definition e_upd : rows_def :=
  {| rd_kind := 1; rd_id := 70; rd_flags := 1; rd_extra := [];
     rd_before := [[CVal (VInt 5); CAbsent; CAbsent; CAbsent; CNull]; [CVal (VInt 6); CAbsent; CAbsent; CAbsent; CVal (VInt 200)]];
     rd_after := [[CAbsent; CVal (VBytes (str "ann")); CVal (VDecimal false [0; 0; 0; 0; 0; 1; 2; 3] [4; 5]); CNull; CVal (VInt 3)];
                  [CAbsent; CNull; CVal (VDecimal true [0; 0; 0; 0; 0; 0; 0; 7] [0; 0]); CVal (VDateTime 2020 1 2 3 4 5 123); CNull]] |}.
Definition e_ins : rows_def :=
  {| rd_kind := 0; rd_id := 71; rd_flags := 0; rd_extra := []; rd_before := [];
     rd_after := [[CVal (VInt 18446744073709551615); CVal (VBytes (str "paid")); CVal (VJson e_doc)]] |}.
Definition e_ins2 : rows_def :=
  {| rd_kind := 0; rd_id := 71; rd_flags := 1; rd_extra := [7]; rd_before := [];
     rd_after := [[CVal (VInt 1); CNull; CAbsent]; [CVal (VInt 2); CVal (VBytes []); CAbsent]] |}.
Definition e_del : rows_def :=
  {| rd_kind := 2; rd_id := 71; rd_flags := 1; rd_extra := []; rd_before := [[CVal (VInt 1); CAbsent; CAbsent]]; rd_after := [] |}.

Definition e_b : binlog :=
  {| b_fake_h := e_h 0 0; b_fake_name := str "bin.000001"; b_fake_pos := 4; b_fake_crc := [];
     b_fmt_h := e_h 1600000000 124; b_version := str "5.7.30-log"; b_fmt_crc := [9; 9; 9; 9];
     b_units :=
       [([WPrevGtids (e_h 1600000000 155) [0; 0; 0; 0; 0; 0; 0; 0] []; WAnonGtid (e_h 1600000001 220) 0 (repeat 0 16) 0 []],
         WTx (e_q 1600000001 300 "BeGiN" "")
             [([], IMap (e_h 1600000001 360) e_t1 []);
              ([], IMap (e_h 1600000001 400) e_t2 []);
              ([], IRows (e_h 1600000001 470) e_t1 e_upd []);
              ([WOther (e_h 1600000001 470) 28 (str "x") []; WQuery (e_h 1600000001 470) 9 0 0 [] (str "shop") (str "SAVEPOINT sp1") []],
               IRows (e_h 1600000002 520) e_t2 e_ins []);
              ([], IRows (e_h 1600000002 570) e_t2 e_ins2 [])]
             [] (CXid (e_h 1600000002 601) 77 []));
        ([WHeartbeat (e_h 0 0) (str "bin.000001") []],
         WAuto (SQuery (e_q 1600000003 750 "create" " table t (a int)")));
        ([], WRot (e_h 1600000004 800) (str "bin.000002") 4 []);
        ([WFormat (e_h 1600000005 124) (str "5.7.30-log") []],
         WAuto (SQuery (e_q 1600000006 260 "SET" " @a = 1")));
        ([], WAuto (SRows (e_h 1600000007 300) e_t2 [] [WGtid (e_h 1600000007 300) 1 (repeat 7 16) 5 []] (e_h 1600000007 350) e_del []))];
     b_tail := [WHeartbeat (e_h 0 0) (str "bin.000002") []] |}.
Definition e_p : position := {| p_file := str "bin.000001"; p_off := 220 |}.

(* evaluated through parse_events: the result is the one the specification computes for the denoted units ... *)
Example C01_e2e_example :
  parse_events e_ffmt e_tz e_jsonp (fun _ => true) e_mp e_p (map (wire e_cfg) (serve e_b)) =
  (snd (spec_run e_p (denote e_ffmt e_tz e_efmt e_mp e_b)),
   map (fun t => (t, true)) (fst (spec_run e_p (denote e_ffmt e_tz e_efmt e_mp e_b))), OEnd).
Proof. vm_compute. reflexivity. Qed.

(* ... namely four transactions with chained labels, ending in the second file; the update carries both rows with
   absent (true, None), NULL (false, None) and value cells; the first insert carries the rendered JSON document *)
Example C01_e2e_example_values :
  let '(p, txs, o) := parse_events e_ffmt e_tz e_jsonp (fun _ => true) e_mp e_p (map (wire e_cfg) (serve e_b)) in
  p = {| p_file := str "bin.000002"; p_off := 350 |} /\ o = OEnd /\
  map (fun tb => (p_off (t_now (fst tb)), p_off (t_next (fst tb)), snd tb)) txs = [(220, 601, true); (601, 750, true); (4, 260, true); (260, 350, true)] /\
  map (fun tb => option_map (map (fun e => (se_type e, se_table e))) (t_events (fst tb))) txs =
    [Some [(5, (str "shop", str "orders")); (4, (str "shop", str "log")); (4, (str "shop", str "log"))];
     Some [(7, ([], []))]; Some [(12, ([], []))]; Some [(6, (str "shop", str "log"))]] /\
  match txs with
  | (t, _) :: _ =>
    match t_events t with
    | Some (u :: i :: _) =>
      map (map (fun c => (c_type c, c_empty c, c_data c))) (se_values i) =
        [[(8, false, Some (str "18446744073709551615")); (252, false, Some (str "paid"));
          (245, false, Some (str "JSON_OBJECT('tags',JSON_ARRAY('vip',-3,true),'score',1E+7,'at',CAST('2020-01-02 03:04:05.600000' AS DATETIME(6)),'big',18446744073709551615)"))]] /\
      map (map (fun c => (c_empty c, c_data c))) (se_ids u) =
        [[(false, Some (str "5")); (true, None); (true, None); (true, None); (false, None)];
         [(false, Some (str "6")); (true, None); (true, None); (true, None); (false, Some (str "200"))]] /\
      map (map (fun c => (c_empty c, c_data c))) (se_values u) =
        [[(true, None); (false, Some (str "ann")); (false, Some (str "123.45")); (false, None); (false, Some (str "3"))];
         [(true, None); (false, None); (false, Some (str "-7.00")); (false, Some (str "2020-01-02 03:04:05.123")); (false, None)]]
    | _ => False
    end
  | _ => False
  end.
Proof. vm_compute. repeat split; reflexivity. Qed.

(* and the binlog satisfies the hypothesis of the capstone *)
Ltac e_arith := vm_compute; repeat split; first [reflexivity | (let H := fresh in intro H; discriminate H)].
Ltac e_query :=
  unfold wf_query; split; [e_arith|]; split; [unfold fits; vm_compute; reflexivity|];
  split; [vm_compute; reflexivity|]; split; [vm_compute; reflexivity|];
  split; [intros x Hx Hc; subst x; vm_compute in Hx; intuition discriminate|];
  split; [first [left; reflexivity | right; vm_compute; eexists; reflexivity]|vm_compute; reflexivity].
Ltac e_gap := unfold wf_gap; repeat (apply Forall_cons; [cbn [ignorable]; unfold fits, wf_version; e_arith|]); apply Forall_nil.
Ltac e_images := unfold wf_images; repeat (apply Forall_cons; [vm_compute; reflexivity|]); apply Forall_nil.
Ltac e_table :=
  unfold wf_table; split; [unfold wf_table_def; repeat split; try (vm_compute; congruence); repeat constructor|];
  eexists; split; reflexivity.
Ltac e_rows :=
  unfold wf_rows; split; [e_arith|]; split; [unfold fits; vm_compute; reflexivity|]; split; [reflexivity|];
  unfold wf_rows_def; split; [vm_compute; tauto|]; split; [e_arith|]; split; [vm_compute; reflexivity|];
  split; [vm_compute; congruence|]; split; intros _; e_images.
Ltac e_map := cbn [wf_item]; split; [e_arith|]; split; [unfold fits; vm_compute; reflexivity|e_table].

Example C01_e2e_example_wf : wf_binlog e_cfg e_mp e_b.
Proof.
  unfold wf_binlog. split; [reflexivity|]. split; [e_arith|]. split; [unfold fits; vm_compute; reflexivity|].
  split; [e_arith|]. split; [unfold wf_version; e_arith|]. split; [|e_gap].
  cbn [b_units e_b].
  apply Forall_cons; [cbn [fst snd]; split; [e_gap|]|].
  { cbn [wf_unit]. split; [e_query|]. split; [|split; [e_gap|cbn [wf_close]; split; [e_arith|unfold fits; vm_compute; reflexivity]]].
    cbn [wf_body known_after]. unfold announce. cbn [filter].
    split; [e_gap|]. split; [e_map|].
    split; [e_gap|]. split; [e_map|].
    cbn [td_id e_t1 e_t2 Z.eqb Pos.eqb negb filter].
    split; [e_gap|]. split; [cbn [wf_item]; split; [right; left; reflexivity|e_rows]|].
    split; [e_gap|]. split; [cbn [wf_item]; split; [left; reflexivity|e_rows]|].
    split; [e_gap|]. split; [cbn [wf_item]; split; [left; reflexivity|e_rows]|]. exact I. }
  apply Forall_cons; [cbn [fst snd]; split; [e_gap|cbn [wf_unit wf_stmt]; e_query]|].
  apply Forall_cons; [cbn [fst snd]; split; [e_gap|cbn [wf_unit]; split; [e_arith|split; [unfold fits; vm_compute; reflexivity|e_arith]]]|].
  apply Forall_cons; [cbn [fst snd]; split; [e_gap|cbn [wf_unit wf_stmt]; e_query]|].
  apply Forall_cons; [cbn [fst snd]; split; [e_gap|]|].
  { cbn [wf_unit wf_stmt]. split; [e_arith|]. split; [unfold fits; vm_compute; reflexivity|]. split; [e_table|]. split; [e_gap|e_rows]. }
  apply Forall_nil.
Qed.

(* the connection layer between the socket and the parser: every packet that is not an EOF / ERR packet is handed to
   the parser as one event (the packet without its first byte), in the order received, nothing dropped or altered;
   reader_source pins the text of the two Go functions this is a reading of (regenerated by gosync on every run) *)
Theorem C01_reader_faithful : forall pkts,
  Forall (fun p => exists b ev, p = b :: ev /\ b <> 254 /\ b <> 255) pkts ->
  reader_events pkts = map (fun p => tl p) pkts.
Proof. exact reader_events_faithful. Qed.
Print Assumptions C01_reader_faithful.

Theorem C01_reader_prefix : forall pkts,
  exists k, (k <= length pkts)%nat /\ reader_events pkts = map (fun p => tl p) (firstn k pkts).
Proof. exact reader_events_prefix. Qed.
Print Assumptions C01_reader_prefix.

From GBGen Require Structure.
Example C01_reader_source :
  Structure.src_readBinlogEvent = str "{ buf, err := s.dc.ReadPacket() if err != nil { return nil, newError(err).msgf(""readPacket fail."") } switch buf[0] { case mysql.PacketEOF: return nil, newError(errStreamEOF).msgf(""readBinlogEvent reach end"") case mysql.PacketERR: return nil, newError(s.dc.HandleErrorPacket(buf)).msgf(""fetch error packet"") default: } data := make([]byte, len(buf)-1) copy(data, buf[1:]) return replication.NewMysql56BinlogEvent(data), nil }"%string /\
  Structure.src_reader_loop = str "for { ev, err := s.readBinlogEvent() if err != nil { s.errChan <- err close(s.errChan) return } select { case eventChan <- ev: case <-ctx.Done(): s.errChan <- newError(ctx.Err()).msgf(""startDumpFromBinlogPosition cancel"") close(s.errChan) return } }"%string.
Proof. exact reader_source. Qed.

(* ---------------------------------------------------------------------------------------------------------------
   Tie to the source.  The functions *_g below are generated from /repo on every run by harness/cmd/gotrans
   (gen/Trans*.v); the theorems say that, for ALL inputs, they compute what the hand-written model functions used in
   the statements above compute (res_sim: the same value, or both an error, or both a panic), under the premises Go's
   types provide.  A change to one of these Go functions that alters its behaviour makes the proof below fail. *)
From GB Require Import Model.Header Model.Events Model.Rbr Model.Cell Base.GoSem Proofs.TransTactics Proofs.TransEquivCell Proofs.TransEquivMeta Proofs.TransEquivBitmap Proofs.TransEquivHeader Proofs.TransEquivEvents Proofs.TransEquivRbr.
From GBGen Require Import TransCell TransMeta TransBitmap TransHeader TransEvents TransRbr.
Open Scope Z_scope.

Theorem C01_tie_IsValid : forall ev, res_sim (binlogEvent_IsValid_g ev) (is_valid ev).
Proof. exact binlogEvent_IsValid_equiv. Qed.
Print Assumptions C01_tie_IsValid.

Theorem C01_tie_TableMap : forall fuel ev f,
  wf_bytes ev -> hlen_byte f -> len ev < 2 ^ 62 -> (length ev < fuel)%nat ->
  res_sim (binlogEvent_TableMap_g fuel ev (Format_of f)) (res_map TableMap_of (ev_table_map f ev)).
Proof. exact binlogEvent_TableMap_equiv. Qed.
Print Assumptions C01_tie_TableMap.

Theorem C01_tie_Rows : forall fuel ev f tm,
  wf_bytes ev -> hlen_byte f -> len ev < 2 ^ 61 -> wf_bytes (tm_types tm) -> meta_ok tm ->
  rows_event ev -> (17 * length ev + 2 < fuel)%nat ->
  res_sim (binlogEvent_Rows_g fuel ev (Format_of f) (TableMap_of tm)) (res_map Rows_of (ev_rows f tm ev)).
Proof. exact binlogEvent_Rows_equiv. Qed.
Print Assumptions C01_tie_Rows.

(* the value decoder behind every delivered cell: CellBytes, all 23 cases of its switch, translated from /repo on every
   run and proved equal to the model function cell_bytes the row-image conversion of Model/Streamer.v calls (flat: a nil
   and an empty slice are both "no bytes"; premises: bytes, uint16 metadata, the position is an index into the row data) *)
From GB Require Proofs.TransEquivCellBytesDefs Proofs.TransEquivCellBytes.
From GBGen Require TransCellBytes.
Theorem C01_tie_CellBytes : forall ffmt tz jsonp fuel d pos typ meta uns,
  (1000 <= fuel)%nat -> wf_bytes d -> 0 <= meta < 65536 -> Z.of_nat pos < 2 ^ 62 -> (pos <= List.length d)%nat ->
  res_sim (TransCellBytes.CellBytes_g ffmt (print_timestamp tz) jsonp fuel d (Z.of_nat pos) typ meta uns)
          (TransEquivCellBytesDefs.flat (cell_bytes ffmt tz jsonp d pos typ meta uns)).
Proof. exact TransEquivCellBytes.CellBytes_equiv. Qed.
Print Assumptions C01_tie_CellBytes.

(* ---------------------------------------------------------------------------------------------------------------
   Source pins.  The model functions used above are a hand-written reading of these Go functions (they have closures,
   channels, interfaces or maps, which the translator gotrans does not accept).  gosync regenerates their normalised
   text (logging calls and comments removed) into gen/Source.v on every run; it must equal the committed snapshot
   Spec/SourceSnapshot.v the models were written and validated against.  When one of them is edited the Example
   naming it fails, the check runs the thorough harness in search of a failing input, and reports the property as no
   longer shown to hold (with the input, or no-failing-input-found). *)
From GB Require Proofs.SourcePins Spec.SourceSnapshot.
From GBGen Require Source.
Example C01_pin_parseEvents : Source.src_parseEvents = SourceSnapshot.src_parseEvents.
Proof. exact SourcePins.pin_parseEvents. Qed.
Example C01_pin_getValuesFromRow : Source.src_getValuesFromRow = SourceSnapshot.src_getValuesFromRow.
Proof. exact SourcePins.pin_getValuesFromRow. Qed.
Example C01_pin_getIdentifiesFromRow : Source.src_getIdentifiesFromRow = SourceSnapshot.src_getIdentifiesFromRow.
Proof. exact SourcePins.pin_getIdentifiesFromRow. Qed.
Example C01_pin_appendInsertEventFromRows : Source.src_appendInsertEventFromRows = SourceSnapshot.src_appendInsertEventFromRows.
Proof. exact SourcePins.pin_appendInsertEventFromRows. Qed.
Example C01_pin_appendUpdateEventFromRows : Source.src_appendUpdateEventFromRows = SourceSnapshot.src_appendUpdateEventFromRows.
Proof. exact SourcePins.pin_appendUpdateEventFromRows. Qed.
Example C01_pin_appendDeleteEventFromRows : Source.src_appendDeleteEventFromRows = SourceSnapshot.src_appendDeleteEventFromRows.
Proof. exact SourcePins.pin_appendDeleteEventFromRows. Qed.
Example C01_pin_readBinlogEvent : Source.src_readBinlogEvent = SourceSnapshot.src_readBinlogEvent.
Proof. exact SourcePins.pin_readBinlogEvent. Qed.
Example C01_pin_startDumpFromBinlogPosition : Source.src_startDumpFromBinlogPosition = SourceSnapshot.src_startDumpFromBinlogPosition.
Proof. exact SourcePins.pin_startDumpFromBinlogPosition. Qed.
Example C01_pin_newTransaction : Source.src_newTransaction = SourceSnapshot.src_newTransaction.
Proof. exact SourcePins.pin_newTransaction. Qed.
Example C01_pin_newStreamEvent : Source.src_newStreamEvent = SourceSnapshot.src_newStreamEvent.
Proof. exact SourcePins.pin_newStreamEvent. Qed.
Example C01_pin_newColumnData : Source.src_newColumnData = SourceSnapshot.src_newColumnData.
Proof. exact SourcePins.pin_newColumnData. Qed.
