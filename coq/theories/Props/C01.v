(* C01 — End-to-end fidelity: the handler sees exactly the committed transactions.
   Stated in two layers that compose:
   (1) this file: if the packets decode to the events of a sequence of units (with quiet events interleaved
       anywhere), parseEvents delivers exactly the transactions of those units - C01_fidelity_given_decoding;
   (2) the decoding layer: what each well-formed encoded event decodes to - headers and control events with or
       without CRC32 (Props/C16.v), table maps (Props/C15.v), rows events and images for v1/v2 and 4/6-byte table
       ids (Props/C09.v), every cell type (Props/C10..C14.v).
   The composition for concrete histories is exercised end to end by the harness (model, implementation through
   the parseEvents hook, and the real Stream() against the fake master are compared with the unit-level oracle). *)
From GB Require Import Base.Prelude Model.Events Model.Streamer Spec.Units.
From GB Require Import Proofs.StreamProofs Proofs.StreamProofs2 Proofs.StreamProofs3.
Open Scope Z_scope.

Theorem C01_fidelity_given_decoding : forall ffmt tz jsonp verdict mp,
  (forall k, verdict k = true) -> forall evs p us,
  let st0 := init_state p in
  ~ In APanic (trace ffmt tz jsonp verdict mp st0 evs) ->
  filter (fun a => negb (quiet a)) (trace ffmt tz jsonp verdict mp st0 evs) = events us ->
  parse_events ffmt tz jsonp verdict mp p evs =
    (snd (spec_run p us), map (fun t => (t, true)) (fst (spec_run p us)), OEnd).
Proof. exact fidelity_given_decoding. Qed.
Print Assumptions C01_fidelity_given_decoding.

(* the byte-level loop is, event by event, the state machine applied to the decoded event *)
Theorem C01_run_is_abstract : forall ffmt tz jsonp verdict mp evs st,
  ~ In APanic (trace ffmt tz jsonp verdict mp st evs) ->
  run_from ffmt tz jsonp verdict mp st evs =
    (fst (arun verdict st (trace ffmt tz jsonp verdict mp st evs)),
     outcome_of (snd (arun verdict st (trace ffmt tz jsonp verdict mp st evs)))).
Proof. exact run_is_abstract. Qed.
Print Assumptions C01_run_is_abstract.

Example C01_nonvacuous :
  let e := {| se_type := 4; se_table := ([100], [116]); se_query := zero_query; se_ts := 7; se_values := []; se_ids := [] |} in
  let us := [UTx [{| st_ev := e; st_next := 200; st_ts := 7 |}] 230 8; UAuto {| st_ev := e; st_next := 300; st_ts := 9 |}] in
  map (fun t => (p_off (t_now t), p_off (t_next t))) (fst (spec_run {| p_file := [97]; p_off := 120 |} us)) = [(120, 230); (230, 300)] /\
  filter (fun a => negb (quiet a)) (ANop :: AFormat format_zero :: ABegin :: ANop :: stmt_event {| st_ev := e; st_next := 200; st_ts := 7 |} :: [ACommit 230 8])
    = events [UTx [{| st_ev := e; st_next := 200; st_ts := 7 |}] 230 8].
Proof. split; vm_compute; reflexivity. Qed.
