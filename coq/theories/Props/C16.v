(* C16 — Event headers and control events decode exactly, checksum or not.
   This file contains only statements closed by `exact`, non-vacuity
   Examples and Print Assumptions.
   Encoders (Spec/EncHeader.v, Spec/EncEvent.v, Spec/EventSpec.v) are what the master writes;
   decoders (Model/Header.v, Model/Events.v) mirror the Go code.  `do e <- strip ..; K e` is
   "apply the announced checksum algorithm, then decode". *)
From GB Require Import Base.Prelude Model.Header Model.Events
  Spec.EncHeader Spec.EncEvent Spec.Expect Spec.EventSpec Proofs.EventProofs.
From Coq Require Import String.
Open Scope Z_scope.

(* ---- 1. common header ---- *)

(* 19-byte header, no checksum: every accessor returns the field written, the length field is the
   real length and the validity gate accepts the event *)
Theorem C16_header_fields : forall h body,
  wf_hdr h -> len (enc_event h body) < 2 ^ 32 ->
  let ev := enc_event h body in
  ev_timestamp ev = Ok (h_ts h) /\ ev_type ev = Ok (h_type h) /\ ev_server_id ev = Ok (h_sid h) /\
  ev_next_position ev = Ok (h_next h) /\ ev_flags ev = Ok (h_flags h) /\
  ev_length ev = Ok (len ev) /\ is_valid ev = Ok true.
Proof. exact header_fields. Qed.
Print Assumptions C16_header_fields.

(* the same for any header length 19..255 and with or without a checksum (as received) *)
Theorem C16_header_fields_ev : forall c h body crc,
  wf_cfg c = true -> wf_hdr h -> len (enc_ev c h body crc) < 2 ^ 32 ->
  let ev := enc_ev c h body crc in
  ev_timestamp ev = Ok (h_ts h) /\ ev_type ev = Ok (h_type h) /\ ev_server_id ev = Ok (h_sid h) /\
  ev_next_position ev = Ok (h_next h) /\ ev_flags ev = Ok (h_flags h) /\
  ev_length ev = Ok (len ev) /\ is_valid ev = Ok true.
Proof. exact header_fields_ev. Qed.
Print Assumptions C16_header_fields_ev.

(* after stripping: same five fields; the LENGTH FIELD still counts the checksum, so Length()
   is 4 more than the buffer and IsValid() is false when a checksum was present *)
Theorem C16_header_fields_stripped : forall c h body,
  wf_cfg c = true -> wf_hdr h -> c_hlen c + len body + (if c_crc c then 4 else 0) < 2 ^ 32 ->
  let ev := enc_ev_stripped c h body in
  ev_timestamp ev = Ok (h_ts h) /\ ev_type ev = Ok (h_type h) /\ ev_server_id ev = Ok (h_sid h) /\
  ev_next_position ev = Ok (h_next h) /\ ev_flags ev = Ok (h_flags h) /\
  ev_length ev = Ok (len ev + (if c_crc c then 4 else 0)) /\
  is_valid ev = Ok (negb (c_crc c)).
Proof. exact header_fields_stripped. Qed.
Print Assumptions C16_header_fields_stripped.

(* ---- 2. format description ---- *)

Theorem C16_format_roundtrip : forall c h version crc,
  wf_cfg c = true -> len version <= 50 -> no_trailing_zero version = true ->
  ev_format (enc_format c h version crc) = Ok (expect_format c version).
Proof. exact format_roundtrip. Qed.
Print Assumptions C16_format_roundtrip.

(* any post-header-length table of 27..255 entries, any header length 19..255, any algorithm byte *)
Theorem C16_format_roundtrip_table : forall h version hlen sizes alg crc,
  27 <= len sizes <= 255 -> len version <= 50 -> no_trailing_zero version = true -> 19 <= hlen <= 255 ->
  ev_format (enc_format_gen h version hlen sizes alg crc) =
  Ok {| f_version := 4; f_server := version; f_hlen := hlen; f_alg := alg; f_sizes := sizes |}.
Proof. exact format_roundtrip_table. Qed.
Print Assumptions C16_format_roundtrip_table.

(* enc_format is the instance of enc_format_gen for a configuration *)
Theorem C16_format_instance : forall c h version crc,
  enc_format c h version crc = enc_format_gen h version (c_hlen c) (sizes_table c) (alg_of c) crc.
Proof. exact enc_format_instance. Qed.
Print Assumptions C16_format_instance.

(* without the side condition: the version read is the text with its trailing zero bytes removed
   (a NUL padded field cannot represent them); tables of any length *)
Theorem C16_format_roundtrip_gen : forall h version hlen sizes alg crc,
  len version <= 50 -> 19 <= hlen ->
  ev_format (enc_format_gen h version hlen sizes alg crc) =
  Ok {| f_version := 4; f_server := denoted_version version; f_hlen := hlen; f_alg := alg; f_sizes := sizes |}.
Proof. exact format_roundtrip_gen. Qed.
Print Assumptions C16_format_roundtrip_gen.

Theorem C16_format_trailing_zero : forall h version hlen sizes alg crc,
  len version < 50 -> 19 <= hlen ->
  ev_format (enc_format_gen h (version ++ [0]) hlen sizes alg crc) =
  Ok {| f_version := 4; f_server := denoted_version version; f_hlen := hlen; f_alg := alg; f_sizes := sizes |}.
Proof. exact format_trailing_zero. Qed.
Print Assumptions C16_format_trailing_zero.

(* ---- 3. rotate, int-var, rand ---- *)

Theorem C16_rotate_roundtrip : forall c h v pos name crc,
  wf_cfg c = true -> 0 <= pos < 2 ^ 63 ->
  (do e <- strip_checksum56 (expect_format c v) (enc_ev c h (enc_rotate_body pos name) crc);
   ev_rotate (expect_format c v) e) = Ok (name, pos).
Proof. exact rotate_roundtrip_pos. Qed.
Print Assumptions C16_rotate_roundtrip.

(* the int64 cast: 8-byte positions from 2^63 up come out negative *)
Theorem C16_rotate_roundtrip_wrap : forall c h v pos name crc,
  wf_cfg c = true -> 2 ^ 63 <= pos < 2 ^ 64 ->
  (do e <- strip_checksum56 (expect_format c v) (enc_ev c h (enc_rotate_body pos name) crc);
   ev_rotate (expect_format c v) e) = Ok (name, pos - 2 ^ 64).
Proof. exact rotate_roundtrip_wrap. Qed.
Print Assumptions C16_rotate_roundtrip_wrap.

Theorem C16_intvar_roundtrip : forall c h v t val crc,
  wf_cfg c = true -> 0 <= val < 2 ^ 64 ->
  (do e <- strip_checksum56 (expect_format c v) (enc_ev c h (enc_intvar_body t val) crc);
   ev_intvar (expect_format c v) e) = if (t =? 1) || (t =? 2) then Ok (t, val) else Err EIntVarId.
Proof. exact intvar_roundtrip. Qed.
Print Assumptions C16_intvar_roundtrip.

Theorem C16_rand_roundtrip : forall c h v a b crc,
  wf_cfg c = true -> 0 <= a < 2 ^ 64 -> 0 <= b < 2 ^ 64 ->
  (do e <- strip_checksum56 (expect_format c v) (enc_ev c h (enc_rand_body a b) crc);
   ev_rand (expect_format c v) e) = Ok (a, b).
Proof. exact rand_roundtrip. Qed.
Print Assumptions C16_rand_roundtrip.

(* ---- 4. query ---- *)

(* status variables in the order a master emits them, arbitrary payloads for the codes the scanner
   does not size; thread id, exec time, error code, SQL text and checksum bytes are unconstrained *)
Theorem C16_query_roundtrip : forall c h v thread exec err vars db sql crc,
  wf_cfg c = true -> legal_order vars = true -> query_fits vars db = true ->
  (do e <- strip_checksum56 (expect_format c v) (enc_ev c h (enc_query_body thread exec err vars db sql) crc);
   ev_query (expect_format c v) e) =
  Ok {| q_db := db; q_sql := sql; q_charset := charset_in vars |}.
Proof. exact query_roundtrip. Qed.
Print Assumptions C16_query_roundtrip.

(* variables in ANY order: database and SQL are still exact; the charset is the one of the last
   code-4 variable met before the first code the scanner cannot size *)
Theorem C16_query_roundtrip_any_order : forall c h v thread exec err vars db sql crc,
  wf_cfg c = true -> forallb var_shape_ok vars = true -> query_fits vars db = true ->
  (do e <- strip_checksum56 (expect_format c v) (enc_ev c h (enc_query_body thread exec err vars db sql) crc);
   ev_query (expect_format c v) e) =
  Ok {| q_db := db; q_sql := sql; q_charset := charset_scan vars None |}.
Proof. exact query_roundtrip_scan. Qed.
Print Assumptions C16_query_roundtrip_any_order.

(* ---- 5. checksum transparency ---- *)

(* both flavours cut exactly the checksum; then EVERY decoder (rotate, query, int-var, rand, table id,
   type, flags, timestamp, server id, next position) returns, for EVERY body (also bodies the decoder
   rejects or panics on), what it returns on the event written by a master without checksums.
   The length field is excluded on purpose: see C16_header_fields_stripped. *)
Theorem C16_checksum_transparent : forall c h v body crc crc0,
  wf_cfg c = true ->
  strip_checksum56 (expect_format c v) (enc_ev c h body crc) = Ok (enc_ev_stripped c h body) /\
  strip_checksum_maria (expect_format c v) (enc_ev c h body crc) = Ok (enc_ev_stripped c h body) /\
  decode_all (expect_format c v) (enc_ev_stripped c h body) =
  decode_all (expect_format (set_crc c false) v) (enc_ev (set_crc c false) h body crc0).
Proof. exact checksum_transparent. Qed.
Print Assumptions C16_checksum_transparent.

(* algorithm off (0) and undefined (255): the event is returned as it is, whatever it is *)
Theorem C16_strip_alg_identity : forall f ev,
  f_alg f = 0 \/ f_alg f = 255 ->
  strip_checksum56 f ev = Ok ev /\ strip_checksum_maria f ev = Ok ev.
Proof. exact strip_alg_identity. Qed.
Print Assumptions C16_strip_alg_identity.

Theorem C16_strip_alg_crc32 : forall f ev,
  f_alg f = 1 -> strip_checksum56 f ev = cut4 ev /\ strip_checksum_maria f ev = cut4 ev.
Proof. exact strip_alg_crc32. Qed.
Print Assumptions C16_strip_alg_crc32.

(* any other algorithm byte: error for MySQL 5.6, "drop four bytes" for MariaDB *)
Theorem C16_strip_alg_unknown : forall f ev,
  f_alg f <> 0 -> f_alg f <> 1 -> f_alg f <> 255 ->
  strip_checksum56 f ev = Err EChecksumAlg /\ strip_checksum_maria f ev = cut4 ev.
Proof. exact strip_alg_unknown. Qed.
Print Assumptions C16_strip_alg_unknown.

(* ---- 6. table ids ---- *)

Theorem C16_table_id_roundtrip : forall c h v id rest crc,
  wf_cfg c = true -> is_tid_type c (h_type h) = true -> tid_fits c id = true ->
  (do e <- strip_checksum56 (expect_format c v) (enc_ev c h (enc_table_id c id ++ rest) crc);
   ev_table_id (expect_format c v) e) = Ok id.
Proof. exact table_id_roundtrip. Qed.
Print Assumptions C16_table_id_roundtrip.

(* the announced post-header length of table-map events is 6 exactly for 4-byte ids *)
Theorem C16_header_size_table_map : forall c v,
  wf_cfg c = true -> header_size (expect_format c v) 19 = Ok (if c_tid4 c then 6 else 8).
Proof. exact header_size_19. Qed.
Print Assumptions C16_header_size_table_map.

(* ---- non-vacuity ---- *)

Definition ex_cfg : cfg := {| c_crc := true; c_v2 := true; c_tid4 := false; c_hlen := 23; c_nsizes := 40; c_pad_cols := 0; c_pad_null := 255; c_pad_tm := 0 |}.
Definition ex_cfg4 : cfg := {| c_crc := true; c_v2 := false; c_tid4 := true; c_hlen := 19; c_nsizes := 35; c_pad_cols := 255; c_pad_null := 255; c_pad_tm := 255 |}.
Definition ex_hdr (t : Z) : hdr := {| h_ts := 1700000000; h_type := t; h_sid := 4294967295; h_next := 4096; h_flags := 8 |}.
Definition ex_vars : list (Z * bytes) :=
  [(0, [0; 0; 0; 0]); (1, [0; 0; 32; 64; 0; 0; 0; 0]); (6, 3 :: str "std"%string); (3, [1; 0; 1; 0]);
   (4, [33; 0; 45; 0; 8; 0]); (5, 3 :: str "UTC"%string); (7, [9; 0])].
Definition ex_fmt : format := expect_format ex_cfg (str "8.0.36"%string).

(* a configuration with CRC and a 23-byte header; its header decodes and passes the gate *)
Example C16_ex_cfg :
  wf_cfg ex_cfg = true /\ c_crc ex_cfg = true /\ c_hlen ex_cfg = 23 /\
  is_valid (enc_ev ex_cfg (ex_hdr 4) (enc_rotate_body 4 (str "bin.000002"%string)) [1; 2; 3; 4]) = Ok true /\
  (do e <- strip_checksum56 ex_fmt (enc_ev ex_cfg (ex_hdr 4) (enc_rotate_body 4 (str "bin.000002"%string)) [1; 2; 3; 4]);
   ev_rotate ex_fmt e) = Ok (str "bin.000002"%string, 4).
Proof. repeat split; vm_compute; reflexivity. Qed.

(* a query with status variables 0,1,6,3,4,5,7 *)
Example C16_ex_query :
  map fst ex_vars = [0; 1; 6; 3; 4; 5; 7] /\ legal_order ex_vars = true /\
  query_fits ex_vars (str "shop"%string) = true /\ charset_in ex_vars = Some (33, 45, 8) /\
  (do e <- strip_checksum56 ex_fmt (enc_ev ex_cfg (ex_hdr 2) (enc_query_body 11 0 0 ex_vars (str "shop"%string) (str "BEGIN"%string)) [9; 9; 9; 9]);
   ev_query ex_fmt e) = Ok {| q_db := str "shop"%string; q_sql := str "BEGIN"%string; q_charset := Some (33, 45, 8) |}.
Proof. repeat split; vm_compute; reflexivity. Qed.

(* orders a master does not emit are outside legal_order; the any-order theorem says what happens *)
Example C16_ex_illegal_order :
  legal_order [(5, 3 :: str "UTC"%string); (4, [33; 0; 45; 0; 8; 0])] = false /\
  legal_order [(2, [1; 65; 0]); (6, [1; 65])] = false /\
  charset_scan [(5, 3 :: str "UTC"%string); (4, [33; 0; 45; 0; 8; 0])] None = None.
Proof. repeat split; vm_compute; reflexivity. Qed.

(* a format description with 200 size entries, and one per end of the 27..255 range *)
Example C16_ex_format_200 :
  let sizes := map (fun i => Z.of_nat i mod 256) (seq 1 200) in
  len sizes = 200 /\ no_trailing_zero (str "10.4.32-MariaDB"%string) = true /\
  ev_format (enc_format_gen (ex_hdr 15) (str "10.4.32-MariaDB"%string) 19 sizes 1 [1; 2; 3; 4]) =
  Ok {| f_version := 4; f_server := str "10.4.32-MariaDB"%string; f_hlen := 19; f_alg := 1; f_sizes := sizes |} /\
  len (repeat 0 27) = 27 /\
  (exists f, ev_format (enc_format_gen (ex_hdr 15) [] 19 (repeat 0 27) 0 []) = Ok f /\ len (f_sizes f) = 27) /\
  (exists f, ev_format (enc_format_gen (ex_hdr 15) (repeat 65 50) 255 (repeat 7 255) 255 []) = Ok f /\
             len (f_sizes f) = 255 /\ len (f_server f) = 50).
Proof.
  cbv zeta. repeat split; try (vm_compute; reflexivity);
    eexists; (split; [vm_compute; reflexivity|]); repeat split; vm_compute; reflexivity.
Qed.

Example C16_ex_format_cfg :
  ev_format (enc_format ex_cfg (ex_hdr 15) (str "8.0.36"%string) []) = Ok ex_fmt /\
  f_alg ex_fmt = 1 /\ f_hlen ex_fmt = 23 /\ len (f_sizes ex_fmt) = 40 /\
  no_trailing_zero (str "8.0.36"%string) = true /\ no_trailing_zero [56; 0] = false /\ no_trailing_zero [] = true.
Proof. repeat split; vm_compute; reflexivity. Qed.

(* 4- and 6-byte table ids; the checksummed event and its checksum-free twin decode alike *)
Example C16_ex_table_id :
  wf_cfg ex_cfg4 = true /\ is_tid_type ex_cfg4 19 = true /\ is_tid_type ex_cfg4 24 = true /\
  tid_fits ex_cfg4 4294967295 = true /\ tid_fits ex_cfg4 4294967296 = false /\
  is_tid_type ex_cfg 31 = true /\ tid_fits ex_cfg 281474976710655 = true /\
  (do e <- strip_checksum56 (expect_format ex_cfg4 []) (enc_ev ex_cfg4 (ex_hdr 19) (enc_table_id ex_cfg4 4294967295 ++ [1; 0]) []);
   ev_table_id (expect_format ex_cfg4 []) e) = Ok 4294967295 /\
  (do e <- strip_checksum56 ex_fmt (enc_ev ex_cfg (ex_hdr 31) (enc_table_id ex_cfg 281474976710655 ++ [1; 0]) []);
   ev_table_id ex_fmt e) = Ok 281474976710655.
Proof. repeat split; vm_compute; reflexivity. Qed.

Example C16_ex_wf_hdr : wf_hdr (ex_hdr 2).
Proof. unfold wf_hdr, ex_hdr. cbn [h_ts h_type h_sid h_next h_flags]. lia. Qed.

(* ---------------------------------------------------------------------------------------------------------------
   Tie to the source.  The functions *_g below are generated from /repo on every run by harness/cmd/gotrans
   (gen/Trans*.v); the theorems say that, for ALL inputs, they compute what the hand-written model functions used in
   the statements above compute (res_sim: the same value, or both an error, or both a panic), under the premises Go's
   types provide.  A change to one of these Go functions that alters its behaviour makes the proof below fail. *)
From GB Require Import Model.Header Model.Events Model.Rbr Model.Cell Base.GoSem Proofs.TransTactics Proofs.TransEquivCell Proofs.TransEquivMeta Proofs.TransEquivBitmap Proofs.TransEquivHeader Proofs.TransEquivEvents Proofs.TransEquivChecksum Proofs.TransEquivRbr.
From GBGen Require Import TransCell TransMeta TransBitmap TransHeader TransEvents TransChecksum TransRbr.
Open Scope Z_scope.

Theorem C16_tie_Format : forall ev,
  len_ok ev -> res_sim (binlogEvent_Format_g ev) (res_map Format_of (ev_format ev)).
Proof. exact binlogEvent_Format_equiv. Qed.
Print Assumptions C16_tie_Format.

Theorem C16_tie_Rotate : forall ev f,
  hlen_byte f -> res_sim (binlogEvent_Rotate_g ev (Format_of f)) (ev_rotate f ev).
Proof. exact binlogEvent_Rotate_equiv. Qed.
Print Assumptions C16_tie_Rotate.

Theorem C16_tie_Query : forall fuel ev f,
  wf_bytes ev -> hlen_byte f -> 65536 <= Z.of_nat fuel ->
  res_sim (binlogEvent_Query_g fuel ev (Format_of f)) (res_map Query_of (ev_query f ev)).
Proof. exact binlogEvent_Query_equiv_65536. Qed.
Print Assumptions C16_tie_Query.

Theorem C16_tie_IntVar : forall ev f,
  hlen_byte f -> res_sim (binlogEvent_IntVar_g ev (Format_of f)) (ev_intvar f ev).
Proof. exact binlogEvent_IntVar_equiv. Qed.
Print Assumptions C16_tie_IntVar.

Theorem C16_tie_Rand : forall ev f,
  hlen_byte f -> res_sim (binlogEvent_Rand_g ev (Format_of f)) (ev_rand f ev).
Proof. exact binlogEvent_Rand_equiv. Qed.
Print Assumptions C16_tie_Rand.

(* "with a checksum or without": the event parseEvents goes on with after StripChecksum, and the checksum bytes it
   discards, for every checksum algorithm code (off, undefined, CRC32, any other = error) *)
Theorem C16_tie_StripChecksum : forall f ev,
  len_ok ev ->
  res_sim (mysql56BinlogEvent_StripChecksum_g ev (Format_of f)) (strip_checksum56_pair f ev) /\
  res_map fst (strip_checksum56_pair f ev) = strip_checksum56 f ev /\
  (forall e c, strip_checksum56_pair f ev = Ok (e, c) -> ev = e ++ c).
Proof.
  intros f ev L. split; [exact (mysql56BinlogEvent_StripChecksum_equiv f ev L)|].
  split; [exact (strip_pair_fst f ev)|]. exact (strip_pair_parts f ev).
Qed.
Print Assumptions C16_tie_StripChecksum.

Theorem C16_tie_HeaderSize : forall f typ,
  res_sim (BinlogFormat_HeaderSize_g (Format_of f) typ) (header_size f typ).
Proof. exact BinlogFormat_HeaderSize_equiv. Qed.
Print Assumptions C16_tie_HeaderSize.

Theorem C16_tie_Type : forall ev, res_sim (binlogEvent_Type_g ev) (ev_type ev).
Proof. exact binlogEvent_Type_equiv. Qed.
Print Assumptions C16_tie_Type.

Theorem C16_tie_Flags : forall ev, res_sim (binlogEvent_Flags_g ev) (ev_flags ev).
Proof. exact binlogEvent_Flags_equiv. Qed.
Print Assumptions C16_tie_Flags.

Theorem C16_tie_Timestamp : forall ev, res_sim (binlogEvent_Timestamp_g ev) (ev_timestamp ev).
Proof. exact binlogEvent_Timestamp_equiv. Qed.
Print Assumptions C16_tie_Timestamp.

Theorem C16_tie_ServerID : forall ev, res_sim (binlogEvent_ServerID_g ev) (ev_server_id ev).
Proof. exact binlogEvent_ServerID_equiv. Qed.
Print Assumptions C16_tie_ServerID.

Theorem C16_tie_Length : forall ev, res_sim (binlogEvent_Length_g ev) (ev_length ev).
Proof. exact binlogEvent_Length_equiv. Qed.
Print Assumptions C16_tie_Length.

Theorem C16_tie_NextPosition : forall ev, res_sim (binlogEvent_NextPosition_g ev) (ev_next_position ev).
Proof. exact binlogEvent_NextPosition_equiv. Qed.
Print Assumptions C16_tie_NextPosition.

