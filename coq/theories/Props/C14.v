(* C14 — JSON columns decode to the document the master stored.
   Only statements closed by `exact`, non-vacuity Examples and Print Assumptions.

   Reading guide
     jdoc, ser, wf_doc, render, render_top, jequiv, efmt_token, efmt_injective, finite_doubles : Spec/EncJson.v
     VJson, wf_value / enc_cell / text for a TJson column                                      : Spec/Values.v
     cell_ok (the cell lemma shared by the row- and stream-level theorems C09 / C01)            : Proofs/CellCommon.v
     print_json, print_json_fuel, read_varlen                                                  : Model/Json.v
     cell_bytes                                                                                : Model/Cell.v
   efmt : Z -> bytes is the oracle strconv.AppendFloat(nil, Float64frombits(bits), 'E', -1, 64). *)
From GB Require Import Base.Prelude Base.DecText Model.Cell Model.Json Spec.Values Spec.EncJson.
From GB Require Import Proofs.JsonVarlen Proofs.JsonFaithful Proofs.JsonCell Proofs.JsonInjective.
From GB Require Import Proofs.CellCommon Proofs.CellAll.
From Coq Require Import String.
Open Scope Z_scope.

(* (1) faithfulness: every storable document, of any depth and size, in any mix of small and large
       containers, with inlined and out-of-line values, followed by arbitrary bytes *)
Theorem C14_json_faithful : forall efmt d rest,
  wf_doc d -> print_json efmt (ser d ++ rest) = Ok (render_top efmt d).
Proof. exact json_faithful_all. Qed.
Print Assumptions C14_json_faithful.

(* (2) fuel: any fuel above the nesting depth suffices, and the fuel print_json uses is above it *)
Theorem C14_fuel_sufficient : forall efmt d rest fuel,
  wf_doc d -> (depth d < fuel)%nat -> print_json_fuel efmt fuel (ser d ++ rest) = Ok (render_top efmt d).
Proof. exact json_fuel_sufficient. Qed.
Print Assumptions C14_fuel_sufficient.

Theorem C14_default_fuel_enough : forall d rest, (depth d < S (List.length (ser d ++ rest)))%nat.
Proof. exact json_default_fuel_enough. Qed.
Print Assumptions C14_default_fuel_enough.

(* (3) the variable-length size prefix: round trip for every size MySQL can write (< 2^32) and in fact
       for every size below 2^63; at 2^63 the tenth byte lands in the sign bit of Go's int *)
Theorem C14_varlen_roundtrip : forall n pre rest,
  0 <= n < 2 ^ 32 ->
  read_varlen (pre ++ enc_varlen n ++ rest) (List.length pre) = Ok (n, (List.length pre + List.length (enc_varlen n))%nat).
Proof. exact varlen_roundtrip. Qed.
Print Assumptions C14_varlen_roundtrip.

Theorem C14_varlen_roundtrip_63 : forall n pre rest,
  0 <= n < 2 ^ 63 ->
  read_varlen (pre ++ enc_varlen n ++ rest) (List.length pre) = Ok (n, (List.length pre + List.length (enc_varlen n))%nat).
Proof. exact varlen_roundtrip_63. Qed.
Print Assumptions C14_varlen_roundtrip_63.

Theorem C14_varlen_2_63_reads_negative : read_varlen (enc_varlen (2 ^ 63)) 0 = Ok (- 2 ^ 63, 10%nat).
Proof. exact varlen_2_63_negative. Qed.
Print Assumptions C14_varlen_2_63_reads_negative.

(* (4) the text determines the document up to what it does not show: integer width tags and
       small/large flags (jequiv).  Premises on the oracle: its output is a numeric-looking token that is
       never an integer literal, and finite doubles print injectively; JSON has no NaN/Inf. *)
Theorem C14_render_injective : forall efmt,
  efmt_token efmt -> efmt_injective efmt -> forall d1 d2,
  wf_doc d1 -> wf_doc d2 -> finite_doubles d1 = true -> finite_doubles d2 = true ->
  render efmt d1 = render efmt d2 -> jequiv d1 d2.
Proof. exact render_injective. Qed.
Print Assumptions C14_render_injective.

Theorem C14_render_top_injective : forall efmt,
  efmt_token efmt -> efmt_injective efmt -> forall d1 d2,
  wf_doc d1 -> wf_doc d2 -> finite_doubles d1 = true -> finite_doubles d2 = true ->
  render_top efmt d1 = render_top efmt d2 -> jequiv d1 d2.
Proof. exact render_top_injective. Qed.
Print Assumptions C14_render_top_injective.

(* (5) at the observation point: CellBytes on a TypeJSON column with an lb-byte length prefix *)
Theorem C14_json_cell : forall ffmt tz efmt d pre rest lb uns,
  wf_doc d -> 1 <= lb <= 4 -> len (ser d) < 256 ^ lb ->
  cell_bytes ffmt tz (print_json efmt)
             (pre ++ le_enc (Z.to_nat lb) (len (ser d)) ++ ser d ++ rest) (List.length pre) 245 lb uns
  = Ok (Some (render_top efmt d), lb + len (ser d)).
Proof. exact json_cell_all. Qed.
Print Assumptions C14_json_cell.

(* (6) as a value of a row image (Spec.Values): a TJson lb column holding VJson d is written as lb length bytes
       followed by ser d (enc_cell) and must be delivered as render_top efmt d (text); wf_value asks for wf_doc d
       and a serialisation that fits the length bytes.  This is the cell lemma in the form the row-level (C09) and
       stream-level (C01) theorems consume: value decoder and length rule agree with the encoder and the text. *)
Theorem C14_json_cell_ok : forall ffmt tz efmt lb uns d,
  wf_type (TJson lb) = true -> wf_value (TJson lb) uns (VJson d) = true ->
  cell_ok ffmt tz efmt (print_json efmt) (TJson lb) uns (VJson d).
Proof. exact json_ok. Qed.
Print Assumptions C14_json_cell_ok.

(* ---- non-vacuity ---- *)
Definition ex_efmt (bits : Z) : bytes := str "1E+" ++ digs bits.

(* depth 3; large array > small array > large object; inlined literals, int16, int32 (large only),
   uint32 inlined in the large object, out-of-line int32 in the small array, strings, double, opaque
   negative TIME, DATETIME, DECIMAL *)
Definition ex_doc : jdoc :=
  JArr true
    [JInt32 (-5); JNull;
     JArr false
       [JTrue; JInt32 70000; JStr (str "zz"); JTime true 1 0 0 0;
        JObj true [(str "k", JUint32 7); (str "", JDouble 99); (str "when", JDateTime 2015 1 15 23 24 25 120000);
                   (str "amount", JDecimal 13 4 true [0;0;3;4;5;6;7;8;9] [1;2;3;4])];
        JInt16 (-32768)];
     JInt64 (-1); JUint16 65535].

Example C14_nonvacuous :
  wf_docb ex_doc = true /\ depth ex_doc = 3%nat /\ finite_doubles ex_doc = true /\
  print_json ex_efmt (ser ex_doc ++ [1; 2; 3]) = Ok (render_top ex_efmt ex_doc) /\
  render_top ex_efmt ex_doc =
  str "JSON_ARRAY(-5,null,JSON_ARRAY(true,70000,'zz',CAST('-01:00:00' AS TIME(6)),JSON_OBJECT('k',7,'',1E+99,'when',CAST('2015-01-15 23:24:25.120000' AS DATETIME(6)),'amount',CAST('-3456789.1234' AS DECIMAL(13,4))),-32768),-1,65535)".
Proof. repeat split; vm_compute; reflexivity. Qed.

(* the same document as a column value; a document of more than 255 bytes needs more than one length byte *)
Example C14_value_nonvacuous :
  wf_value (TJson 2) false (VJson ex_doc) = true /\ wf_value (TJson 1) false (VJson ex_doc) = true /\
  wf_value (TJson 1) false (VJson (JStr (repeat 97 300))) = false /\ wf_value (TJson 2) false (VJson (JStr (repeat 97 300))) = true /\
  enc_cell (TJson 2) (VJson ex_doc) = le_enc 2 (len (ser ex_doc)) ++ ser ex_doc /\ len (ser ex_doc) = 172 /\
  text (fun _ _ => []) (fun _ => 0) ex_efmt (TJson 2) false (VJson ex_doc) = render_top ex_efmt ex_doc /\
  cell_bytes (fun _ _ => []) (fun _ => 0) (print_json ex_efmt) ([7] ++ enc_cell (TJson 2) (VJson ex_doc) ++ [8; 9]) 1 245 2 false
    = Ok (Some (render_top ex_efmt ex_doc), 174).
Proof. repeat split; vm_compute; reflexivity. Qed.

(* the same document in the other formats is a different byte string with the same text *)
Definition ex_doc_small : jdoc :=
  JArr false
    [JInt32 (-5); JNull;
     JArr true
       [JTrue; JInt32 70000; JStr (str "zz"); JTime true 1 0 0 0;
        JObj false [(str "k", JUint32 7); (str "", JDouble 99); (str "when", JDateTime 2015 1 15 23 24 25 120000);
                    (str "amount", JDecimal 13 4 true [0;0;3;4;5;6;7;8;9] [1;2;3;4])];
        JInt16 (-32768)];
     JInt64 (-1); JUint16 65535].

Example C14_formats_differ_text_agrees :
  wf_docb ex_doc_small = true /\ bytes_eqb (ser ex_doc) (ser ex_doc_small) = false /\
  render_top ex_efmt ex_doc_small = render_top ex_efmt ex_doc /\
  norm ex_doc = norm ex_doc_small.
Proof. repeat split; vm_compute; reflexivity. Qed.

(* a varlen prefix of 1, 2, 3 and 5 bytes *)
Example C14_varlen_widths :
  map (fun n => List.length (enc_varlen n)) [0; 127; 128; 16383; 16384; 2 ^ 32 - 1] = [1; 1; 2; 2; 3; 5]%nat.
Proof. vm_compute. reflexivity. Qed.

(* ---------------------------------------------------------------------------------------------------------------
   Tie to the source of the two readers every container, string and opaque value goes through.  readOffsetOrSize
   (2- or 4-byte counts, sizes and offsets of the small / large storage format) and readVariableLength (the length
   prefix of strings and opaque values) are translated from binlog_event_json.go by gotrans on every run
   (gen/TransJsonRead.v); the theorems say the translations compute read_off and read_varlen, the functions
   C14_json_faithful and C14_varlen_roundtrip are about - on every input, at every position, well-formed or not
   (same value and next position, or both panic).  Premises: the data are bytes; positions and lengths are below 2^62;
   the fuel of the translated loop exceeds the number of bytes. *)
From GB Require Base.GoSem Proofs.TransTactics Proofs.TransEquivJsonRead.
From GBGen Require TransJsonRead.
Theorem C14_tie_readOffsetOrSize : forall d pos large,
  wf_bytes d -> Z.of_nat pos < 2 ^ 62 ->
  GoSem.res_sim (TransJsonRead.readOffsetOrSize_g d (Z.of_nat pos) large)
                (TransTactics.res_map TransEquivJsonRead.val_pos (read_off d pos large)).
Proof. exact TransEquivJsonRead.readOffsetOrSize_equiv. Qed.
Print Assumptions C14_tie_readOffsetOrSize.

Theorem C14_tie_readVariableLength : forall fuel d pos,
  Z.of_nat (List.length d) < 2 ^ 62 -> (List.length d < fuel)%nat ->
  GoSem.res_sim (TransJsonRead.readVariableLength_g fuel d (Z.of_nat pos))
                (TransTactics.res_map TransEquivJsonRead.val_pos (read_varlen d pos)).
Proof. exact TransEquivJsonRead.readVariableLength_equiv. Qed.
Print Assumptions C14_tie_readVariableLength.

(* The scalar printers (literals, the six integer widths, doubles through the oracle efmt, strings, and the opaque
   DATE / TIME / DATETIME payloads) are translated as well (gen/TransJsonPrint.v; a `result *bytes.Buffer` parameter is
   the bytes written so far, returned with what the function appended): each appends exactly the text the model
   function of Model/Json.v prints - the functions print_json is made of - for every input.  The container printers,
   printJSONOpaque and printJSONDecimal are not translated (DESIGN A.7: they re-slice into the capacity of the buffer). *)
From GB Require Proofs.TransEquivJsonPrint.
From GBGen Require TransJsonPrint.
Theorem C14_tie_printJSONLiteral : forall b top r,
  GoSem.res_sim (TransJsonPrint.printJSONLiteral_g b top r) (TransEquivJsonPrint.appended r (print_literal b top)).
Proof. exact TransEquivJsonPrint.printJSONLiteral_equiv. Qed.
Print Assumptions C14_tie_printJSONLiteral.

Theorem C14_tie_printJSON_integers : forall d top r, wf_bytes d ->
  GoSem.res_sim (TransJsonPrint.printJSONInt16_g d top r) (TransEquivJsonPrint.appended r (do s <- slice d 0 2; Ok (print_int16 s top))) /\
  GoSem.res_sim (TransJsonPrint.printJSONUint16_g d top r) (TransEquivJsonPrint.appended r (do s <- slice d 0 2; Ok (print_uint16 s top))) /\
  GoSem.res_sim (TransJsonPrint.printJSONInt32_g d top r) (TransEquivJsonPrint.appended r (do s <- slice d 0 4; Ok (print_int32 s top))) /\
  GoSem.res_sim (TransJsonPrint.printJSONUint32_g d top r) (TransEquivJsonPrint.appended r (do s <- slice d 0 4; Ok (print_uint32 s top))) /\
  GoSem.res_sim (TransJsonPrint.printJSONInt64_g d top r) (TransEquivJsonPrint.appended r (do s <- slice d 0 8; Ok (print_int64 s top))) /\
  GoSem.res_sim (TransJsonPrint.printJSONUint64_g d top r) (TransEquivJsonPrint.appended r (do s <- slice d 0 8; Ok (print_uint64 s top))).
Proof.
  exact (fun d top r W => conj (TransEquivJsonPrint.printJSONInt16_equiv d top r W) (conj (TransEquivJsonPrint.printJSONUint16_equiv (fun _ => []) d top r W)
    (conj (TransEquivJsonPrint.printJSONInt32_equiv d top r W) (conj (TransEquivJsonPrint.printJSONUint32_equiv (fun _ => []) d top r W)
    (conj (TransEquivJsonPrint.printJSONInt64_equiv d top r W) (TransEquivJsonPrint.printJSONUint64_equiv d top r W)))))).
Qed.
Print Assumptions C14_tie_printJSON_integers.

Theorem C14_tie_printJSONDouble : forall efmt d top r, wf_bytes d ->
  GoSem.res_sim (TransJsonPrint.printJSONDouble_g efmt d top r)
                (TransEquivJsonPrint.appended r (do s <- slice d 0 8; Ok (print_double efmt s top))).
Proof. exact TransEquivJsonPrint.printJSONDouble_equiv. Qed.
Print Assumptions C14_tie_printJSONDouble.

Theorem C14_tie_printJSONString : forall fuel d top r,
  wf_bytes d -> (List.length d < fuel)%nat -> Z.of_nat (List.length d) < 2 ^ 62 ->
  GoSem.res_sim (TransJsonPrint.printJSONString_g fuel d top r) (TransEquivJsonPrint.appended r (print_string d top)).
Proof. exact TransEquivJsonPrint.printJSONString_equiv. Qed.
Print Assumptions C14_tie_printJSONString.

Theorem C14_tie_printJSON_temporal : forall d top r, wf_bytes d ->
  GoSem.res_sim (TransJsonPrint.printJSONDate_g d top r) (TransEquivJsonPrint.appended r (do b8 <- slice d 0 8; Ok (print_date b8 top))) /\
  GoSem.res_sim (TransJsonPrint.printJSONTime_g d top r) (TransEquivJsonPrint.appended r (do b8 <- slice d 0 8; Ok (print_time b8 top))) /\
  GoSem.res_sim (TransJsonPrint.printJSONDateTime_g d top r) (TransEquivJsonPrint.appended r (do b8 <- slice d 0 8; Ok (print_datetime b8 top))).
Proof.
  exact (fun d top r W => conj (TransEquivJsonPrint.printJSONDate_equiv d top r W)
    (conj (TransEquivJsonPrint.printJSONTime_equiv d top r W) (TransEquivJsonPrint.printJSONDateTime_equiv d top r W))).
Qed.
Print Assumptions C14_tie_printJSON_temporal.
